#!/usr/bin/env python3
"""Re-confirm every kept seed against /repo's current HEAD with the current checks and refresh
meta.json (properties / detected_by). usage: refresh_seeds.py [seed-dir...] (default: all C*-seeds)"""
import concurrent.futures, glob, json, os, sys
sys.path.insert(0, os.path.dirname(__file__))
import eval_mutants as em

def main():
    dirs = sys.argv[1:] or sorted(glob.glob("/verif/seeded/C*"))
    bad = 0
    with concurrent.futures.ThreadPoolExecutor(max_workers=3) as ex:
        for r in ex.map(em.evaluate, dirs):
            d = r["mutant"]
            mp = os.path.join(d, "meta.json")
            m = json.load(open(mp))
            if not r.get("confirmed"):
                bad += 1
                print("NOT-CONFIRMED", os.path.basename(d), r.get("error"), r.get("demo_clean_rc"), r.get("demo_patched_rc"), r.get("suite_out", "")[:300])
                continue
            fired = r.get("fired", {})
            m["properties"] = sorted(fired.keys())
            m["detected_by"] = fired
            if m["ran"] and isinstance(m["ran"], list):
                m["ran"][-1] = "plencheck -property C01..C20 -tier quick -repo <patched scratch tree>: VIOLATION from %s" % (", ".join(sorted(fired.keys())) or "none")
            json.dump(m, open(mp, "w"), indent=1)
            flag = "" if m["breaks"] in fired else "  <-- target property silent"
            print("ok", os.path.basename(d), sorted(fired.keys()), flag)
            sys.stdout.flush()
    print("not confirmed:", bad)

main()
