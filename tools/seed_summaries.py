# One-line summaries of the kept seeded changes (key: <round>-<target property>-<mN>).
def S(key, slug, summary, needs):
    SUMMARY[key] = {"slug": slug, "summary": summary, "needs": needs}

S("r1-C01-m1", "key-scratch-cleared-per-read", "map.go: pooled key scratch cleared once per Read instead of once per entry",
  "map with >=2 entries, struct keys, a key with a zero field that an earlier key had set")
S("r1-C01-m2", "timecompat-size-removed", "time.go: TimeCompatCodec.Size deleted, so the zig-zag Size of TimeCodec is inherited while Append writes plain varints",
  "ProtoCompatibleTime, a time below top level, nanoseconds in 2^27..2^28 or a pre-1970 time")
S("r1-C01-m3", "flush-under-wrong-tag", "struct.go: held-back sub-codecs are flushed to the registry under the struct's tag instead of their own",
  "build a struct with a ,proto []string/map field first, then use that type untagged on the same instance")
S("r1-C02-m1", "fields-sorted-by-index", "struct.go: c.fields sorted by plenc index, so fields are written in index order instead of declaration order",
  "struct whose declaration order differs from index order, compared byte for byte")
S("r1-C02-m2", "time-nanos-plain-varint", "time.go: nanoseconds encoded/decoded/sized as plain varint instead of zig-zag (writer, reader and size change together)",
  "time with non-zero nanoseconds compared with documented bytes or data from an unpatched build")
S("r1-C02-m3", "time-omit-struct-compare", "time.go: TimeCodec.Omit uses == time.Time{} instead of IsZero()",
  "zero instant carrying a non-nil Location")
S("r1-C03-m1", "skip-wtslice-off-by-one", "wire.go Skip: entry bound check l > remaining became >=",
  "removed WTSlice field that is the last thing in its message")
S("r1-C03-m2", "struct-read-stops-at-high-index", "struct.go StructCodec.Read returns success when it meets an index beyond its field table",
  "reader lacks the highest-index field and the writer declares it before a shared field")
S("r1-C03-m3", "pointer-read-always-allocates", "wrapper.go PointerWrapper.Read always allocates a fresh pointee",
  "re-used target with non-nil pointer field and a pointee field absent from the data")
S("r1-C04-m1", "skip-wtlength-wraps", "wire.go Skip WTLength: int(l)+n computed first, then compared with len(data)",
  "unknown WTLength field with a 10-byte length varint >= 2^63")
S("r1-C04-m2", "count-check-inside-alloc-branch", "wrapper.go WTLengthSliceWrapper.Read: count validation moved inside the h.Cap < count branch",
  "slice of length-delimited elements, 10-byte count >= 2^63, then a repeated-form element")
S("r1-C04-m3", "walker-length-check-before-advance", "descriptor.go readAsStruct: offset += n swapped with the length check",
  "Descriptor decode, WTLength field last in the data, overrun of 1..n bytes")
S("r1-C05-m1", "struct-size-prefix-from-total", "struct.go StructCodec.Size: varint width computed from body+tag",
  "struct body of exactly 127 bytes with a one-byte tag, three levels of nesting")
S("r1-C05-m2", "protoslice-empty-frames", "wrapper.go ProtoSliceWrapper.Append writes tag,0 for omitted elements while Size is unchanged",
  "proto slice with a nil pointer entry or zero time, nested in another struct")
S("r1-C05-m3", "protomap-size-closed-form", "map.go ProtoMapCodec.Size replaced by a closed form that assumes a one-byte count",
  "proto-tagged map with >= 128 entries, nested")
S("r1-C06-m1", "marshal-regrows-dropping-prefix", "marshal.go: buffer re-created when cap(data) < Size, dropping the caller's prefix",
  "non-empty prefix and cap(buf) smaller than the encoded size")
S("r1-C06-m2", "marshal-registry-fast-path", "marshal.go: registry fast path on the un-dereferenced pointer type",
  "marshal &leaf, then a struct with a *leaf field, then &leaf again")
S("r1-C06-m3", "struct-append-backpatch-stale-slice", "struct.go StructCodec.Append reserves a length byte and back-patches it through the stale slice",
  "nested struct < 128 bytes and a buffer that reallocates while the body is appended")
S("r1-C07-m1", "overlay-publishes-non-related-types", "struct.go overlay holds back only codecs of the struct itself / its pointer, slice or map",
  "mutually recursive types, second goroutine first-using B while A is being built")
S("r1-C07-m2", "pool-put-before-use", "map.go: defer kPool.Put(k) became an immediate Put right after Get",
  "second goroutine decoding the same map type while the first is inside Read")
S("r1-C07-m3", "intern-plain-pointer-store", "string.go addString publishes the new table with a plain store instead of atomic.StorePointer",
  "concurrent decodes through one interning codec with a not-yet-seen string (race detector)")
S("r1-C08-m1", "index-parsed-unsigned", "struct.go: index parsed with ParseUint and converted with int(), negative check dropped",
  "tag such as plenc:\"18446744073709551615\"")
S("r1-C08-m2", "ptr-map-check-by-codec-type", "codec.go Ptr case tests the codec type (*MapCodec) instead of typ.Elem().Kind()",
  "pointer-to-map field carrying the proto option")
S("r1-C08-m3", "overlay-forgets-map-kind", "struct.go overlay holds back Struct/Ptr/Slice kinds only; maps are published immediately",
  "invalid struct with an earlier map field referring back to it; ask for the struct, then the map type")
S("r1-C09-m1", "map-slot-not-zeroed", "map.go readMapEntry: branch zeroing the slot of an entry without value removed",
  "map[K]*V with nil value decoded into a re-used map that holds the key with a non-nil pointer")
S("r1-C09-m2", "empty-struct-writes-nothing", "struct.go StructCodec.Append/Size: tagged struct with empty body writes nothing",
  "pointer to an all-zero struct in a tagged position")
S("r1-C09-m3", "interned-null-empty-skips-valid", "null.go internedNullStringCodec.Read: early return on empty data skips Valid = true",
  "interned null.String that is valid and empty")
S("r1-C10-m1", "clear-from-current-len", "wrapper.go WTLengthSliceWrapper.Read clears the re-used array only from the current Len upward",
  "re-used, still populated slice and new elements with absent fields")
S("r1-C10-m2", "key-clear-struct-kinds-only", "map.go: pooled key scratch cleared only for struct-kind keys",
  "map with pointer key type")
S("r1-C10-m3", "map-slot-not-zeroed-2", "map.go readMapEntry: value slot no longer zeroed when the entry carries no value",
  "re-used populated map, same key, incoming zero value")
S("r1-C11-m1", "intern-zero-copy-view", "string.go intern path stores a zero-copy string view of the input in the table",
  "intern field, first occurrence of a value, buffer overwritten afterwards")
S("r1-C11-m2", "json-key-view-on-existing-key", "json.go: map key is a view of the input when the key already exists in the target map",
  "decode twice into the same JSON map, then overwrite the buffer")
S("r1-C11-m3", "size-rewrites-invalid-utf8", "string.go StringCodec.size rewrites invalid UTF-8 in the caller's string through ptr",
  "string that is not valid UTF-8")
S("r1-C12-m1", "repeated-reader-drops-empty", "wrapper.go WTLengthSliceWrapper.Read returns early on empty data, dropping empty repeated elements",
  "written with ProtoCompatibleArrays, read in default mode, empty element")
S("r1-C12-m2", "timecompat-size-removed-2", "time.go TimeCompatCodec.Size removed", "ProtoCompatibleTime, nested time, particular nanos")
S("r1-C12-m3", "protomap-key-always-written", "map.go ProtoMapCodec.Append always writes the key while the entry length omits a zero key",
  "proto-tagged map with a zero-valued key")
S("r1-C13-m1", "vertical-tab-escape", "output.go appendString emits \\v for 0x0B", "string containing a vertical tab")
S("r1-C13-m2", "walker-binary-search", "descriptor.go: field lookup by sort.Search assuming elements sorted by index",
  "struct declared with non-ascending plenc indexes")
S("r1-C13-m3", "walker-null-for-zero-pointee", "descriptor.go readAsSlice renders a zero-length explicit-presence element as null",
  "slice of pointers with an element pointing at a zero value")
S("r1-C14-m1", "json-name-empty", "struct.go: json tag with options but no name yields an empty descriptor name", "json:\",omitempty\"")
S("r1-C14-m2", "map-descriptor-loses-flags", "map.go MapCodec.Descriptor rebuilds key/value entries without ExplicitPresence/LogicalType",
  "map with pointer/null/time keys or values")
S("r1-C14-m3", "descriptor-elements-sorted", "struct.go StructCodec.Descriptor sorts elements by index", "struct whose indexes are not ascending")
S("r1-C15-m1", "vertical-tab-escape-2", "output.go appendString adds \\b, \\f and \\v escapes", "byte 0x0B")
S("r1-C15-m2", "uint64-through-int64", "output.go Uint64 delegates to Int64(int64(v))", "uint64 >= 2^63")
S("r1-C15-m3", "reset-keeps-stack", "output.go Reset rewritten as struct literal without truncating the stack", "Reset while a container is open")
S("r1-C16-m1", "empty-json-key-not-written", "json.go sizeKV/appendKV omit an empty map key", "empty key rendered through the Descriptor walker")
S("r1-C16-m2", "array-count-assumes-4-bytes", "json.go JSONArrayCodec.Read count check assumes >= 4 bytes per element", "nil array elements (3 bytes each)")
S("r1-C16-m3", "walker-object-in-array", "descriptor.go readJSONObjectKV walks nested objects with the receiver descriptor", "map[string]any as an array element")
S("r1-C17-m1", "ptr-target-untagged-lookup", "codec.go Ptr case looks the pointee up with tag \"\"", "type registered under a tag used as a pointer target")
S("r1-C17-m2", "basic-type-falls-back-to-default", "codec.go codecForBasicType falls back to defaultPlenc's registry", "package-level registration plus another instance")
S("r1-C17-m3", "global-struct-codec-cache", "struct.go: package-level sync.Map caches struct codecs by (type, tag)", "two instances with different options using the same struct type")
S("r1-C18-m1", "skip-wtslice-merged-advance", "wire.go Skip WTSlice: offset += n + int(l) before the check", "entry length varint with bit 63 set")
S("r1-C18-m2", "hand-rolled-uvarint", "varints.go ReadVarUint: hand-rolled loop without the 10th-byte overflow check", "10-byte varint with 10th byte in 0x02..0x7F")
S("r1-C18-m3", "sizetag-fast-path", "wire.go SizeTag fast path shifts by 3 instead of 4", "field index in 1024..2047 etc.")
S("r1-C19-m1", "intern-zero-copy-key", "string.go intern Read/addString keep a zero-copy view of the input", "buffer overwritten after a value's first sighting")
S("r1-C19-m2", "interned-null-empty-keeps-old", "null.go internedNullStringCodec.Read fast path for empty data leaves the previous string", "valid empty value into a re-used destination")
S("r1-C19-m3", "intern-in-place-insert", "string.go addString inserts in place into the published map when there is spare room", "several goroutines, unseen values arriving")
S("r1-C20-m1", "max-scan-skips-private", "plenctag: max-index scan skips unexported fields", "unexported field holding the highest existing index")
S("r1-C20-m2", "isexcluded-early-return", "plenctag isExcluded returns as soon as the sql key is present", "-json, field with sql name and json:\"-\"")
S("r1-C20-m3", "inspect-returns-false", "plenctag: ast.Inspect callback returns false after a struct", "anonymous struct nested in a field type")

# ---- round 2 ----
S("r2-C01-m1", "slice-append-backpatched-length", "wrapper.go WTLengthSliceWrapper.append reserves one length byte per element and back-patches it, shuffling the element up for a 2-byte length only",
  "[]struct / []string element of 16384 bytes or more")
S("r2-C01-m2", "flat-int16-wrong-width", "plenc.go: int16 \"flat\" registered with FlatIntCodec[uint8]", "int16 flat field outside 0..255")
S("r2-C01-m3", "intern-table-32bit-hash", "string.go: intern table keyed by a 32-bit FNV hash of the bytes", "two different strings with the same 32-bit hash through one interning codec")
S("r2-C02-m1", "struct-omit-all-zero", "struct.go StructCodec.Omit returns true when every field is omitted", "nested all-zero struct as slice element / pointer target / map value")
S("r2-C02-m2", "struct-read-forward-only-lookup", "struct.go: fieldsByIndex table replaced by a forward-only scan carried from field to field",
  "data whose fields are not in the reader's declaration order (reordered declarations)")
S("r2-C02-m3", "flat-int64-through-uint32", "plenc.go: int64 \"flat\" registered with FlatIntCodec[uint32]", "flat int64 value above 2^32")
S("r2-C03-m1", "time-read-skip-wrong-wiretype", "time.go TimeCodec.Read skips unknown fields as WTVarInt whatever their wire type", "time message carrying an unknown length-delimited field")
S("r2-C03-m2", "skip-rejects-empty-entries", "wire.go Skip WTSlice: count compared with remaining bytes / 2", "skipped slice whose entries are mostly empty")
S("r2-C03-m3", "struct-read-clears-on-empty", "struct.go StructCodec.Read zeroes the target when the encoding is empty", "re-used target, nested struct field present but empty in the data")
S("r2-C04-m1", "walker-skip-error-nil-deref", "descriptor.go: 'failed to skip' error message dereferences the nil element", "Descriptor decode of data with a truncated unknown field")
S("r2-C04-m2", "json-typecode-table-index", "json.go readJSONKV indexes a fixed table with the untrusted type code", "JSON entry whose type code is out of range")
S("r2-C04-m3", "protoslice-linear-growth", "wrapper.go ProtoSliceWrapper.Read grows the array by a constant", "long repeated field: quadratic copying")
S("r2-C05-m1", "jsonarray-read-zero-for-empty", "json.go JSONArrayCodec.Read returns 0 consumed bytes for an empty array", "empty array followed by more data in the same slice")
S("r2-C05-m2", "timecompat-size-removed-3", "time.go TimeCompatCodec.Size removed", "ProtoCompatibleTime nested time")
S("r2-C05-m3", "struct-size-cached", "struct.go StructCodec.Size caches the nested size in the codec and Append trusts it", "two values of one type sized then appended out of order / concurrently")
S("r2-C09-m1", "ptr-to-slice-loses-presence", "wrapper.go PointerWrapper.Descriptor sets ExplicitPresence only when the target is not a slice", "Descriptor of *[]T field")
S("r2-C09-m2", "protoslice-slot-not-cleared", "wrapper.go ProtoSliceWrapper.Read no longer clears the slot past Len", "re-used backing array, element with nil pointer field")
S("r2-C09-m3", "time-zero-empty-body", "time.go TimeCodec writes an empty body for the zero time (manifested only through defect D19, since fixed)", "map value *time.Time zero with zero key")
S("r2-C10-m1", "protoslice-slot-not-cleared-2", "wrapper.go ProtoSliceWrapper.Read no longer clears the slot it appends into", "re-used backing array with spare capacity")
S("r2-C10-m2", "fixedslice-len-only-on-alloc", "wrapper.go WTFixedSliceWrapper.Read sets Len only when it allocates", "re-used []float64 with enough capacity")
S("r2-C10-m3", "time-scratch-pool", "time.go: package-level sync.Pool of ptime scratch never reset", "two decodes through the pool, second lacking a field")
S("r2-C11-m1", "bytes-append-returns-input", "string.go BytesCodec.Append returns the caller's slice when the buffer is empty", "Marshal(nil, &[]byte) then mutate either")
S("r2-C11-m2", "walker-zero-copy-strings", "descriptor.go walker hands the Outputter zero-copy views of the input", "Outputter that keeps strings; buffer re-used")
S("r2-C11-m3", "float-slice-view-of-input", "wrapper.go WTFixedSliceWrapper.Read points the slice at the input bytes", "[]float64 decoded, input overwritten")
S("r2-C12-m1", "time-option-from-arrays-flag", "plenc.go RegisterDefaultCodecs picks the time codec from ProtoCompatibleArrays", "instance with only one of the two options")
S("r2-C12-m2", "timecompat-zigzag-nanos", "time.go TimeCompatCodec zig-zags the nanos field", "ProtoCompatibleTime, non-zero nanos read by protobuf")
S("r2-C12-m3", "repeated-reader-loses-on-grow", "wrapper.go readAsWTLength grows without copying existing elements", "repeated form longer than the initial capacity")
S("r2-C13-m1", "walker-flat-int-unsigned", "descriptor.go FieldTypeFlatInt rendered with Uint64", "negative flat int")
S("r2-C13-m2", "descriptor-json-tags", "descriptor.go Descriptor struct json tags drop LogicalType", "Descriptor restored through encoding/json")
S("r2-C13-m3", "json-tag-options-in-name", "struct.go field name takes the whole json tag including options", "json:\"id,omitempty\"")
S("r2-C14-m1", "descriptor-cached-shared", "struct.go struct descriptor cached with sync.Once and handed out shared", "caller mutates the returned Descriptor")
S("r2-C14-m2", "unexported-tagged-fields-encoded", "struct.go unexported fields with a plenc tag are encoded and described", "unexported field carrying a plenc tag")
S("r2-C14-m3", "flat-int16-plain-uint", "plenc.go int16 flat registered with UintCodec (Descriptor type Uint)", "Descriptor of a flat int16 field")
S("r2-C15-m1", "endarray-early-return", "output.go EndArray compact [] early return skips the stack pop", "empty array inside a container")
S("r2-C15-m2", "float64-guard-float32-limit", "output.go Float64 NaN/Inf guard uses the float32 limit", "float64 above MaxFloat32")
S("r2-C15-m3", "namefield-fast-path", "output.go NameField fast path forgets control characters", "field name with a control character")
S("r2-C16-m1", "whole-floats-as-ints", "json.go whole-number float64 written as int", "float64(2) in a JSON value")
S("r2-C16-m2", "jsonarray-rejects-trailing", "json.go JSONArrayCodec.Read rejects data following the array", "array as an unknown field being skipped / followed by data")
S("r2-C16-m3", "nil-elements-zero-length", "json.go nil array elements written as zero-length entries", "nil inside an array rendered through the Descriptor")
S("r2-C17-m1", "named-int-falls-back-to-int64", "codec.go named int types fall back to the int64 registration", "registration for int with a named int type")
S("r2-C17-m2", "flush-under-struct-tag", "struct.go pending codecs flushed under the struct's tag", "tagged sub-codec then untagged use")
S("r2-C17-m3", "map-key-bypasses-registry", "map.go BuildMapCodec uses StringCodec directly for string-kind keys", "registered codec for a named string key type")
S("r2-C20-m1", "exclusion-before-existing-tag", "plenctag exclusion check runs before the existing-tag check", "-json on a field that already has a plenc tag and json:\"-\"")
S("r2-C20-m2", "writes-despite-errors", "plenctag writes output even when rewrite reported errors", "file with an unparsable plenc tag")
S("r2-C20-m3", "plencvalue-parses-options", "plenctag plencValue parses name+options as the index", "existing tag plenc:\"3,flat\"")

# ---- round 3 ----
S("r3-C03-m1", "struct-read-rejects-index-0", "struct.go StructCodec.Read treats an unknown field with index 0 as corrupt data", "writer has a plenc:\"0\" field the reader removed")
S("r3-C03-m2", "map-slot-always-zeroed", "map.go readMapEntry zeroes the value slot right after mapassign and drops the no-value branch", "populated target map with the same key, value struct with a field absent from the data")
S("r3-C03-m3", "walker-lookup-breaks-at-larger-index", "descriptor.go readAsStruct stops the element search at the first element with a larger index", "Descriptor of a struct that declares a lower index after a higher one")
S("r3-C06-m1", "direct-iface-one-level", "marshal.go isDirectIface de-recursed: unwraps one struct and one array level only", "by-value Marshal of struct{Leaf struct{P *int}}")
S("r3-C06-m2", "flush-under-struct-tag-2", "struct.go pending codecs flushed under the struct's own tag (variable rename)", "tagged field type used before its first untagged use")
S("r3-C06-m3", "marshal-nil-guard", "marshal.go Marshal returns nil, nil when the interface data word is nil", "non-empty buf and a nil map / single-field struct holding nil passed by value")
S("r3-C07-m1", "storeorswap-load-then-store", "codec.go StoreOrSwap: Load then Store instead of LoadOrStore", "two goroutines building the same type at the same moment")
S("r3-C07-m2", "lazy-field-table", "struct.go fieldsByIndex built lazily and unsynchronised on first Read", "concurrent first decode through one struct codec")
S("r3-C07-m3", "append-into-shared-tag", "struct.go StructCodec.Append: append(data, AppendVarUint(tag, size)...) writes the length into the shared tag's spare capacity", "goroutines marshalling the same parent type with nested values of different sizes")
S("r3-C08-m2", "flush-before-duplicate-check", "struct.go pending codecs flushed before the duplicate-index check", "self-referential struct with a duplicate index, then a request for *node")
S("r3-C08-m3", "error-message-elem-of-non-elem-kind", "map.go BuildMapCodec error message calls typ.Elem().Elem().Name()", "rejected map value type that is unnamed and has no Elem (interface{}, func, anonymous struct)")
S("r3-C10-m1", "pointer-read-fresh-value", "wrapper.go PointerWrapper.Read always decodes into a fresh pointee", "target already holds a non-nil pointer whose pointee has fields absent from the data")
S("r3-C10-m2", "varint-slice-empty-early-return", "wrapper.go WTVarIntSliceWrapper.Read returns early on empty data", "empty slice encoding decoded into a populated []int")
S("r3-C10-m3", "intern-table-cap", "string.go addString skips the insert when the table has 1024 entries and returns the failed lookup's zero value", "more than 1024 distinct values through one interned field")
S("r3-C13-m1", "time-microsecond-layout", "output.go JSONOutput.Time uses a microsecond layout", "time whose nanoseconds are not a whole number of microseconds")
S("r3-C13-m2", "walker-number-reparsed", "descriptor.go json.Number re-emitted through Int64/Float64", "json.Number outside int64 / beyond float64 precision")
S("r3-C13-m3", "fieldtype-text-marshalers", "descriptor.go FieldType.MarshalText/UnmarshalText over stale stringer tables", "Descriptor with flat int / JSON field types restored through encoding/json")
S("r3-C16-m1", "walker-number-float64", "descriptor.go json.Number rendered through Float64", "json.Number not representable as float64")
S("r3-C16-m2", "empty-array-code-only", "json.go empty nested []any written as its type code alone (size, append, reader updated; walker not)", "empty []any nested in a map or array, rendered through the Descriptor")
S("r3-C16-m3", "json-array-no-clear", "json.go JSONArrayCodec.Read no longer resets re-used elements", "nil element decoded into a re-used array holding a non-nil value")
S("r3-C18-m1", "sizevarint-from-magnitude", "varints.go SizeVarInt computed from |v| plus one bit", "v = -2^(7k-1)")
S("r3-C18-m2", "skip-varint-accepts-truncated", "wire.go Skip WTVarInt uses ReadVarUint and checks only n < 0", "truncated varint (all continuation bits)")
S("r3-C18-m3", "skip-slice-count-precheck", "wire.go Skip WTSlice pre-check count >= remaining", "trailing WTSlice with only empty entries")
S("r3-C19-m1", "interned-null-loses-omit", "null.go internedNullStringCodec embeds the interning codec and loses the null-aware Omit", "valid empty null.String tagged intern")
S("r3-C19-m2", "intern-fixed-array-key", "string.go intern table keyed by a zero-padded [32]byte", "values differing only in trailing NUL bytes")
S("r3-C19-m3", "intern-table-cap-2", "string.go addString table size cap returns the zero string once full", "more than 1024 distinct values, then a new one")

# ---- round 4 ----
S("r4-C01-m1", "direct-iface-pointer-field-only", "marshal.go isDirectIface struct case simplified to Field(0).Type.Kind() == Ptr", "by-value Marshal of struct{M map[..]..} or struct{In struct{P *T}}")
S("r4-C01-m2", "pointer-read-fresh-value-2", "wrapper.go PointerWrapper.Read always allocates a fresh pointee", "pointer to a repeated-form slice with two or more elements")
S("r4-C01-m3", "struct-size-prefix-from-total-2", "struct.go StructCodec.Size computes the prefix width from body plus tag", "struct body of exactly 127 bytes, nested in something length-prefixed")
S("r4-C02-m1", "uint8-size-always-one", "int.go UintCodec size returns 1 for every one-byte type", "uint8 >= 128 inside a nested struct / slice element / map entry")
S("r4-C02-m2", "overlay-ignores-tag", "struct.go wrappedCodecRegistry.Load matches held-back codecs by type only", "two fields of one non-registered type with different options in one struct")
S("r4-C02-m3", "string-replaces-invalid-utf8", "string.go StringCodec replaces invalid UTF-8 with U+FFFD before writing", "string that is not valid UTF-8")
S("r4-C04-m1", "walker-packed-loop-no-progress-check", "descriptor.go readAsSlice: n <= 0 guard removed from the packed element loop", "Descriptor decode of a packed slice ending in a truncated varint")
S("r4-C04-m2", "readtag-fast-path", "wire.go ReadTag fast path reads data[1] without a length check", "input ending after the first byte of a multi-byte tag")
S("r4-C04-m3", "map-length-check-int", "map.go readTagAndLength compares int(fieldLen) with the remaining bytes", "map key/value with a length varint >= 2^63")
S("r4-C05-m1", "bqtimestamp-size-zigzag", "time.go BQTimestampCodec.Size sizes the value as a zig-zag varint", "time before 1970 or in 1978-1987 inside a length-delimited parent")
S("r4-C05-m2", "struct-read-stops-at-zero-tag", "struct.go StructCodec.Read treats a 0x00 tag byte as end of message", "struct with a varint field tagged plenc:\"0\"")
S("r4-C05-m3", "nullint-size-zero-when-invalid", "null.go nullIntCodec.Size returns 0 when invalid while Append writes a byte", "[]null.Int with an invalid element")
S("r4-C09-m1", "interned-null-loses-omit-2", "null.go internedNullStringCodec embeds the interning codec (Omit and Descriptor from the plain string codec)", "valid empty null.String tagged intern")
S("r4-C09-m2", "varint-slice-empty-writes-nothing", "wrapper.go WTVarIntSliceWrapper writes nothing at all for an empty slice", "non-nil pointer to an empty []int")
S("r4-C09-m3", "map-descriptor-drops-presence", "map.go MapCodec.Descriptor rebuilds key/value descriptors without ExplicitPresence", "map with pointer or null-typed key or value")
S("r4-C11-m1", "timecompat-append-stores-utc", "time.go TimeCompatCodec.append stores t.UTC() back through the pointer", "ProtoCompatibleTime and a time whose Location is not UTC")
S("r4-C11-m2", "bytes-read-empty-view", "string.go BytesCodec.Read returns data[:0] for present-but-empty bytes", "empty []byte element; append to the decoded slice")
S("r4-C11-m3", "bool-slice-normalises-input", "wrapper.go WTVarIntSliceWrapper.Read rewrites input bytes > 1 to 1 for []bool", "[]bool with a true element encoded as 0x02..0x7f")
S("r4-C12-m1", "timecompat-omits-zero-fields", "time.go TimeCompatCodec omits seconds/nanos when zero", "ProtoCompatibleTime and time.Unix(0,0)")
S("r4-C12-m2", "protoslice-slot-not-cleared-3", "wrapper.go ProtoSliceWrapper.Read no longer clears the appended slot", "re-used target with spare capacity")
S("r4-C12-m3", "proto-not-for-pointer-elements", "codec.go proto form not used for slices of pointers", "[]*Struct in proto mode, checked with an independent wire walker")
S("r4-C14-m1", "slice-descriptor-clears-presence", "wrapper.go BaseSliceWrapper.Descriptor forces ExplicitPresence = false on its element", "[]*int, []*struct, []null.X")
S("r4-C14-m2", "protoslice-descriptor-is-element", "wrapper.go new ProtoSliceWrapper.Descriptor returns the element's descriptor", "proto-style slice of strings or structs")
S("r4-C14-m3", "jsonmap-descriptor-logical-map", "json.go JSONMapCodec.Descriptor adds LogicalTypeMap", "field of type map[string]any with JSONMapCodec registered")
S("r4-C15-m1", "time-via-marshaljson", "output.go Time uses t.MarshalJSON and drops the error", "year outside 0..9999")
S("r4-C15-m2", "prefix-indent-slice", "output.go prefix slices a 64-space constant, guard compares depth with its byte length", "more than 32 containers open")
S("r4-C15-m3", "appendstring-rune-error", "output.go appendString replaces bytes that decode to RuneError without checking size", "string containing U+FFFD")
S("r4-C17-m1", "overlay-ignores-tag-2", "struct.go wrappedCodecRegistry.Load drops the tag comparison for held-back codecs", "one struct with two fields of the same derived type and different tag options")
S("r4-C17-m2", "lazy-default-plenc", "codec.go/marshal.go default instance initialised lazily with sync.Once; package-level RegisterCodec writes straight into it", "package-level registration for a default key before the first use")
S("r4-C17-m3", "registration-first-one-wins", "plenc.go RegisterCodecWithTag uses StoreOrSwap (LoadOrStore)", "registration for a key that already has an entry")
S("r4-C20-m1", "skip-write-when-unchanged", "plenctag skips the write-back unless a fresh index was handed out", "-w and only excluded fields left to tag")
S("r4-C20-m2", "first-pass-drops-errors", "plenctag first pass no longer records plencValue errors", "existing plenc tag with a non-numeric index")
S("r4-C20-m3", "splice-into-literal", "plenctag splices the plenc tag into the tag literal before its closing quote", "existing tag written as an interpreted string literal")

# ---- round 5 ----
S("r5-C03-m1", "overlay-ignores-tag-3", "struct.go wrappedCodecRegistry.Load looks held-back codecs up by type only", "added field of the same Go type as a shared field but another tag option")
S("r5-C03-m2", "descriptor-cache-by-type-name", "struct.go StructCodec.Descriptor cached by rtype.String()", "two struct types with the same name (function-local / v1 and v2), S's descriptor requested first")
S("r5-C03-m3", "fields-by-index-uint8", "struct.go fieldsByIndex shrunk to []uint8 holding position+1", "struct with more than 255 encoded fields")
S("r5-C06-m1", "time-append-into-shared-tag", "time.go TimeCodec.Append builds tag and length with AppendVarUint(tag, size)", "goroutines marshalling times of different encoded length")
S("r5-C06-m2", "registry-load-falls-back-to-untagged", "codec.go baseRegistry.Load falls back to the untagged codec on a miss", "flat/proto tagged field whose untagged codec was already built on the Plenc")
S("r5-C06-m3", "grow-extends-length", "wrapper.go new grow helper extends the buffer's length instead of its capacity", "float slice marshalled into a buffer without enough spare capacity")
S("r5-C08-m1", "isrepeatedform-no-unwrap", "codec.go isRepeatedForm no longer unwraps PointerWrapper", "[]*[]string with ProtoCompatibleArrays")
S("r5-C08-m2", "overlay-ignores-tag-4", "struct.go wrappedCodecRegistry.Load matches held-back codecs by type alone", "field with an option after an untagged field of the same unregistered type")
S("r5-C08-m3", "embedded-unexported-with-tag", "struct.go embedded fields of unexported types take part when they carry a plenc tag", "struct embedding an unexported type with a plenc tag")
S("r5-C10-m1", "intern-unsafe-view", "string.go interning looks up and stores an unsafe string view of the input", "intern field, input buffer re-used after Unmarshal")
S("r5-C10-m2", "slice-new-shared-header", "wrapper.go BaseSliceWrapper.New returns the address of one package-level slice header", "nil *[]T target decoded at least twice")
S("r5-C10-m3", "struct-read-resets-proto-slices", "struct.go StructCodec.Read sets Len = 0 on every ProtoSliceWrapper field before decoding", "repeated-form slice field and a target that already holds elements")
S("r5-C13-m1", "map-entry-absent-value-always-null", "descriptor.go readAsMapEntry renders every absent value as null", "string-keyed map with a zero value of a non-pointer type")
S("r5-C13-m2", "mapentry-check-drops-logical-type", "descriptor.go isValidJSONMapEntry no longer checks LogicalTypeMapEntry", "two-field struct whose first field is a string")
S("r5-C13-m3", "descriptor-skips-json-dash", "struct.go StructCodec.Descriptor leaves out fields tagged json:\"-\"", "plenc-indexed field tagged json:\"-\" with a non-zero value")
S("r5-C16-m1", "nil-map-as-json-null", "json.go nested nil map[string]any written as JSON null", "nil map nested as a map value or array element")
S("r5-C16-m2", "walker-count-rejects-empty", "descriptor.go readAsJSON rejects a zero-byte count (n <= 0)", "top-level nil/empty []any or map, omitted empty []any value")
S("r5-C16-m3", "json-depth-limit", "json.go decode-side depth limit of 64", "JSON value nested more than 64 levels")
S("r5-C18-m1", "readvaruint-fast-path", "varints.go ReadVarUint 2-byte fast path reads data[1] unchecked", "input that is exactly one continuation byte")
S("r5-C18-m2", "readtag-two-byte-fast-path", "wire.go ReadTag 2-byte fast path ignores the second byte's continuation bit", "field index >= 2048")
S("r5-C18-m3", "skip-length-int-arithmetic", "wire.go Skip WTLength bounds check in int arithmetic", "length prefix near 2^63")
S("r5-C19-m1", "intern-single-byte-table", "string.go one-byte values served from a table built with string(rune(i))", "single byte 0x80..0xFF in an interned field")
S("r5-C19-m2", "intern-rejects-other-wiretypes", "string.go InternedStringCodec.Read rejects wire types other than WTLength", "data where the field was formerly an int / foreign data")
S("r5-C19-m3", "intern-table-plain-map-field", "string.go table published through a plain map field instead of atomic pointer", "concurrent readers and a publishing writer (race detector)")
S("r5-C07-m1", "descriptor-recursion-flag", "struct.go StructCodec.Descriptor guarded by a describing flag on the shared codec", "overlapping Descriptor() calls on the same or a shared nested struct codec")
S("r5-C07-m2", "intern-insert-in-place", "string.go addString inserts into the published map under the lock instead of copying", "lock-free readers concurrent with a new string")
S("r5-C07-m3", "per-type-build-lock", "plenc.go/codec.go a mutex per struct type held while its codec is built", "mutually recursive A<->B first used from both ends at once (deadlock)")
