#!/usr/bin/env python3
"""Print the markdown tables of DESIGN.md §11 from /verif/seeded/*/meta.json."""
import glob, json, os, re, sys


def rules_of(meta):
    out = {}
    for prop, keys in sorted(meta.get("detected_by", {}).items()):
        rs = sorted({k.split("|")[0] for k in keys})
        out[prop] = rs
    return out


def main():
    rounds = {}
    for d in sorted(glob.glob("/verif/seeded/*")):
        mp = os.path.join(d, "meta.json")
        if not os.path.exists(mp):
            continue
        m = json.load(open(mp))
        sid = m["id"]
        r = re.search(r"-(r\d+)-", sid)
        rnd = r.group(1) if r else "equiv"
        rounds.setdefault(rnd, []).append(m)
    for rnd in sorted(rounds):
        ms = rounds[rnd]
        if rnd == "equiv":
            print("\n#### Behaviour-preserving rewrites (every check must stay silent)\n")
            print("| seed | rewrite |")
            print("|---|---|")
            for m in ms:
                print("| `%s` | %s |" % (m["id"], m.get("summary", "").replace("|", "\\|")))
            continue
        print("\n#### Round %s — %d independent changes kept\n" % (rnd[1:], len(ms)))
        print("| seed (target property first) | change | reported by (property: rules) |")
        print("|---|---|---|")
        for m in ms:
            det = rules_of(m)
            tgt = m.get("breaks", "")
            parts = []
            for p in sorted(det, key=lambda p: (p != tgt, p)):
                s = "%s: %s" % (p, ", ".join(det[p]))
                if p == tgt:
                    s = "**" + s + "**"
                parts.append(s)
            print("| `%s` | %s | %s |" % (m["id"], m.get("summary", "").replace("|", "\\|"), "; ".join(parts) or "— (none)"))


main()
